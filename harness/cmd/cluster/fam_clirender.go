package main

import (
	"bytes"
	"encoding/json"
	"fmt"
	"os"
	"os/exec"
	"path/filepath"
	"sort"
	"strconv"
	"strings"

	"verif/harness/core"

	"github.com/Chocapikk/pgread/pgdump"
)

// canonJ2 is the Go twin of Model/CliRender.lean:canonJV: compact JSON, object keys sorted, every array sorted by the
// text of its elements, strings and keys in encoding/json's own escaping, numbers as written
func canonJ2(v interface{}) string {
	switch x := v.(type) {
	case map[string]interface{}:
		type kv struct{ k, v string }
		kvs := make([]kv, 0, len(x))
		for k, e := range x {
			kb, _ := json.Marshal(k)
			kvs = append(kvs, kv{string(kb), canonJ2(e)})
		}
		sort.Slice(kvs, func(i, j int) bool { return kvs[i].k < kvs[j].k })
		parts := make([]string, len(kvs))
		for i, e := range kvs {
			parts[i] = e.k + ":" + e.v
		}
		return "{" + strings.Join(parts, ",") + "}"
	case []interface{}:
		parts := make([]string, len(x))
		for i, e := range x {
			parts[i] = canonJ2(e)
		}
		sort.Strings(parts)
		return "[" + strings.Join(parts, ",") + "]"
	case json.Number:
		return x.String()
	default:
		b, _ := json.Marshal(x)
		return string(b)
	}
}

// encJSONStrict is main.go's mustEncode (fix cluster/07): an encoding error (NaN / Inf floats, a time outside the
// years 0..9999) means nothing on stdout and exit code 1
func encJSONStrict(v interface{}) ([]byte, int) {
	var buf bytes.Buffer
	enc := json.NewEncoder(&buf)
	enc.SetIndent("", "  ")
	if err := enc.Encode(v); err != nil {
		return nil, 1
	}
	return buf.Bytes(), 0
}

// libJSON: what the library itself returns for the modes the Lean model does not render; ok=false = the call
// returned an error (main.go then prints to stderr and exits 1)
func libJSON(spec string, dir string) (out []byte, exit int) {
	f := strings.Split(spec, ":")
	sub := func(h string) string { return strings.ReplaceAll(unhexS(h), "@DIR", dir) }
	opt := func(h string) string {
		if h == "-" {
			return ""
		}
		return unhexS(h)
	}
	switch f[1] {
	case "index":
		data, err := os.ReadFile(sub(f[2]))
		if err != nil {
			return nil, 1
		}
		info, err := pgdump.ParseIndexFile(data)
		if err != nil {
			return nil, 1
		}
		return encJSONStrict(info)
	case "toast":
		path := sub(f[2])
		data, err := os.ReadFile(path)
		if err != nil {
			return nil, 1
		}
		var toastOID uint32
		if oid, err := strconv.ParseUint(filepath.Base(path), 10, 32); err == nil {
			toastOID = uint32(oid)
		}
		info := pgdump.GetTOASTVerboseInfo(toastOID, data)
		if info == nil {
			return nil, 1
		}
		return encJSONStrict(info)
	case "dropped":
		if f[3] != "-" {
			r, err := pgdump.FindDroppedColumns(sub(f[2]), unhexS(f[3]))
			if err != nil {
				return nil, 1
			}
			return encJSONStrict(r)
		}
		r, err := pgdump.ScanDroppedColumns(sub(f[2]))
		if err != nil {
			return nil, 1
		}
		return encJSONStrict(r)
	case "search":
		r, err := pgdump.Search(sub(f[2]), &pgdump.SearchOptions{Pattern: unhexS(f[3]), IncludeRow: true})
		if err != nil {
			return nil, 1
		}
		return encJSONStrict(r)
	case "secrets":
		r, err := pgdump.ScanForSecrets(sub(f[2]), &pgdump.Options{DatabaseFilter: opt(f[3]), TableFilter: opt(f[4]), SkipSystemTables: true})
		if err != nil {
			return nil, 1
		}
		if len(r) == 0 {
			return []byte("No secrets found\n"), 0
		}
		return encJSONStrict(r)
	}
	panic("clirender: unknown lib spec " + spec)
}

func init() {
	core.SetEnvelope("clirender", 0, 0, 0)
	// clirender: args = argv (hex tokens, @DIR = the materialised tree), PGDATA set?, stderr spec ("all" | N leading
	// bytes), stdout mode (raw | canon | lib:…), files
	core.Register("clirender", func(args []string) string {
		bin := pgreadBinary()
		files := parseFiles(args[4:])
		dir := materialise(files)
		defer os.RemoveAll(dir)
		var argv []string
		if args[0] != "-" {
			for _, h := range strings.Split(args[0], " ") {
				argv = append(argv, strings.ReplaceAll(unhexS(h), "@DIR", dir))
			}
		}
		cmd := exec.Command(bin, argv...)
		var env []string
		for _, e := range os.Environ() {
			if !strings.HasPrefix(e, "PGDATA=") && !strings.HasPrefix(e, "TZ=") {
				env = append(env, e)
			}
		}
		env = append(env, "TZ=UTC")
		if args[1] == "1" {
			env = append(env, "PGDATA="+dir)
		}
		cmd.Env = env
		cmd.Dir = dir
		var stdout, stderr bytes.Buffer
		cmd.Stdout, cmd.Stderr = &stdout, &stderr
		err := cmd.Run()
		exit := 0
		if err != nil {
			ee, ok := err.(*exec.ExitError)
			if !ok {
				panic(err)
			}
			exit = ee.ExitCode()
		}
		if exit == 2 && (bytes.HasPrefix(stderr.Bytes(), []byte("panic:")) || bytes.Contains(stderr.Bytes(), []byte("\ngoroutine "))) {
			return "PANIC:binary"
		}
		unDir := func(b []byte) []byte { return bytes.ReplaceAll(b, []byte(dir), []byte("@DIR")) }
		so, se := unDir(stdout.Bytes()), unDir(stderr.Bytes())
		mode := args[3]
		if strings.HasPrefix(mode, "lib:") {
			want, wantExit := libJSON(mode, dir)
			if exit != wantExit {
				return fmt.Sprintf("exit=%d (library says %d)|err=%s|out=%s", exit, wantExit, core.Hx(se), truncate(core.Hx(so), 400))
			}
			same := bytes.Equal(stdout.Bytes(), want)
			if !same && exit == 0 {
				// map-ordered lists (dropped columns per table, …): compare as canonical JSON
				same = canonJSON(stdout.Bytes()) == canonJSON(want)
			}
			if !same {
				return fmt.Sprintf("exit=%d|err=%s|out differs from the library's JSON: got %q want %q", exit, core.Hx(se), truncate(stdout.String(), 300), truncate(string(want), 300))
			}
			if (exit == 0) != (len(se) == 0) && !strings.HasPrefix(mode, "lib:secrets") {
				return fmt.Sprintf("exit=%d|err=%s (stderr must be empty iff exit 0)|out=lib", exit, core.Hx(se))
			}
			return "exit=lib|err=lib|out=lib"
		}
		errTxt := core.Hx(se)
		if args[2] != "all" {
			n := core.Atoi(args[2])
			if len(se) > n {
				errTxt = core.Hx(se[:n]) + "+"
			}
		}
		outTxt := core.Hx(so)
		if mode == "canon" {
			dec := json.NewDecoder(bytes.NewReader(so))
			dec.UseNumber()
			var v interface{}
			if err := dec.Decode(&v); err != nil {
				outTxt = "canon:unparsable:" + core.Hx(so)
			} else {
				outTxt = "canon:" + core.Hx([]byte(canonJ2(v)))
			}
		}
		return fmt.Sprintf("exit=%d|err=%s|out=%s", exit, errTxt, outTxt)
	})
}
