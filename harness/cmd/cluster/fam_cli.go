package main

import (
	"bytes"
	"encoding/json"
	"fmt"
	"os"
	"os/exec"
	"path/filepath"
	"regexp"
	"sort"
	"strconv"
	"strings"
	"sync"
	"syscall"

	"verif/harness/core"

	"github.com/Chocapikk/pgread/pgdump"
)

var (
	binOnce sync.Once
	binDir  string
	binPath string
	binErr  string
)

// grandparentPID identifies one sweep of bin/check: the shards are `bash -c "pgmodel … | impl"` children of one runner
func grandparentPID() int {
	b, err := os.ReadFile(fmt.Sprintf("/proc/%d/stat", os.Getppid()))
	if err != nil {
		return os.Getppid()
	}
	s := string(b)
	if i := strings.LastIndexByte(s, ')'); i >= 0 {
		f := strings.Fields(s[i+1:])
		if len(f) > 1 {
			if n, err := strconv.Atoi(f[1]); err == nil {
				return n
			}
		}
	}
	return os.Getppid()
}

func withDirLock(dir string, f func()) {
	lf, err := os.OpenFile(filepath.Join(dir, "lock"), os.O_CREATE|os.O_RDWR, 0o644)
	if err != nil {
		panic(err)
	}
	defer lf.Close()
	if err := syscall.Flock(int(lf.Fd()), syscall.LOCK_EX); err != nil {
		panic(err)
	}
	defer syscall.Flock(int(lf.Fd()), syscall.LOCK_UN)
	f()
}

func readRefs(dir string) int {
	b, err := os.ReadFile(filepath.Join(dir, "refs"))
	if err != nil {
		return 0
	}
	n, _ := strconv.Atoi(strings.TrimSpace(string(b)))
	return n
}

// pgreadBinary builds the CLI from the tree under test (VERIF_REPO, `go build` with -mod=readonly, output outside the
// tree) once per sweep: the shard processes of one runner share a scratch directory under a file lock with a
// reference count; the last one out removes it.
func pgreadBinary() string {
	binOnce.Do(func() {
		d := filepath.Join(os.TempDir(), fmt.Sprintf("verif-pgread-%d", grandparentPID()))
		if err := os.MkdirAll(d, 0o755); err != nil {
			binErr = err.Error()
			return
		}
		withDirLock(d, func() {
			out := filepath.Join(d, "pgread")
			refs := readRefs(d)
			if _, err := os.Stat(out); err != nil || refs == 0 {
				cmd := exec.Command("go", "build", "-o", out, ".")
				cmd.Dir = repoDir()
				env := []string{}
				for _, e := range os.Environ() {
					if strings.HasPrefix(e, "GOFLAGS=") || strings.HasPrefix(e, "GOPROXY=") || strings.HasPrefix(e, "GOTOOLCHAIN=") || strings.HasPrefix(e, "GOSUMDB=") {
						continue
					}
					env = append(env, e)
				}
				cmd.Env = append(env, "GOFLAGS=-mod=readonly", "GOPROXY=off")
				if b, err := cmd.CombinedOutput(); err != nil {
					binErr = fmt.Sprintf("go build failed: %v: %s", err, b)
					return
				}
			}
			os.WriteFile(filepath.Join(d, "refs"), []byte(strconv.Itoa(refs+1)), 0o644)
			binDir, binPath = d, out
		})
	})
	if binPath == "" {
		panic("cannot build pgread: " + binErr)
	}
	return binPath
}

func cleanupBinary() {
	if binDir == "" {
		return
	}
	remove := false
	withDirLock(binDir, func() {
		refs := readRefs(binDir) - 1
		if refs <= 0 {
			remove = true
			os.Remove(filepath.Join(binDir, "pgread"))
			os.Remove(filepath.Join(binDir, "refs"))
		} else {
			os.WriteFile(filepath.Join(binDir, "refs"), []byte(strconv.Itoa(refs)), 0o644)
		}
	})
	if remove {
		os.RemoveAll(binDir)
	}
}

var tsLine = regexp.MustCompile(`(?m)^-- Generated at: .*$`)

func maskTS(b []byte) []byte { return tsLine.ReplaceAll(b, []byte("-- Generated at: <masked>")) }

type expect struct {
	stdout []byte
	exit   int
	kind   string // "sql": the timestamp of the `-- Generated at:` line is masked on both sides; "raw": byte for byte
}

// encJSON is main.go's own rendering of a library result (json.NewEncoder + SetIndent("", "  ")); since second-review
// point 11 EVERY JSON mode (-control, -sequences, -relmap, -f -index, -R, the dump) is compared with it byte for byte:
// the former canonJSON (every array sorted, keys re-rendered) hid element order, which is deterministic in all of them
// (FindSequences / GetTOASTVerboseInfo visit sorted keys since 9299071 / b0268df).
func encJSON(v interface{}) []byte {
	var buf bytes.Buffer
	enc := json.NewEncoder(&buf)
	enc.SetIndent("", "  ")
	enc.Encode(v)
	return buf.Bytes()
}

// jsonOut: main.go's mustEncode — an encoding error means nothing usable on stdout and exit code 1
func jsonOut(v interface{}) expect {
	var buf bytes.Buffer
	enc := json.NewEncoder(&buf)
	enc.SetIndent("", "  ")
	if err := enc.Encode(v); err != nil {
		return expect{nil, 1, "raw"}
	}
	return expect{buf.Bytes(), 0, "raw"}
}

func unhexS(s string) string { return string(core.Unhex(s)) }

// expected renders what main.go prints for the action the model's decision table names, by calling the library
func expected(action string, dir string) expect {
	sub := func(s string) string { return strings.ReplaceAll(s, "@DIR", dir) }
	f := strings.Split(action, ":")
	fail := expect{nil, 1, "raw"}
	switch f[0] {
	case "version":
		return expect{[]byte(fmt.Sprintf("pgdump-offline %s\n", pgdump.Version)), 0, "raw"}
	case "nodatadir", "relmapinvalid":
		return fail
	case "listdb":
		dbs := pgdump.ListDatabases(sub(unhexS(f[1])))
		if len(dbs) == 0 {
			return expect{[]byte("No databases found\n"), 1, "raw"}
		}
		var b bytes.Buffer
		for _, db := range dbs {
			fmt.Fprintf(&b, "%s (OID %d)\n", db.Name, db.OID)
		}
		return expect{b.Bytes(), 0, "raw"}
	case "control":
		cf, err := pgdump.ReadControlFile(sub(unhexS(f[1])))
		if err != nil {
			return fail
		}
		return jsonOut(cf)
	case "seq":
		d := sub(unhexS(f[1]))
		if f[2] == "all" {
			r, err := pgdump.ScanAllSequences(d)
			if err != nil {
				return fail
			}
			return jsonOut(r)
		}
		r, err := pgdump.FindSequences(d, unhexS(f[3]))
		if err != nil {
			return fail
		}
		return jsonOut(r)
	case "relmap":
		d := sub(unhexS(f[1]))
		var v interface{}
		var err error
		switch f[2] {
		case "global":
			v, err = pgdump.ReadGlobalRelMap(d)
		case "all":
			v, err = pgdump.ReadAllRelMaps(d)
		default:
			v, err = pgdump.ReadDatabaseRelMap(d, uint32(core.Atoi(f[3])))
		}
		if err != nil {
			return fail
		}
		return jsonOut(v)
	case "passwords":
		auths, err := pgdump.ExtractPasswords(sub(unhexS(f[1])))
		if err != nil {
			return fail
		}
		if len(auths) == 0 {
			return expect{[]byte("No password hashes found\n"), 0, "raw"}
		}
		user := unhexS(f[2])
		var b bytes.Buffer
		b.WriteString("PostgreSQL Password Hashes:\n===========================\n")
		for _, a := range auths {
			if user != "all" && a.RoleName != user {
				continue
			}
			flags := ""
			if a.RolSuper {
				flags += " [SUPERUSER]"
			}
			if a.RolLogin {
				flags += " [LOGIN]"
			}
			if a.Password != "" {
				fmt.Fprintf(&b, "%s:%s%s\n", a.RoleName, a.Password, flags)
			} else {
				fmt.Fprintf(&b, "%s:(no password)%s\n", a.RoleName, flags)
			}
		}
		return expect{b.Bytes(), 0, "raw"}
	case "dump":
		r, err := pgdump.DumpDataDir(sub(unhexS(f[1])), func() *pgdump.Options { o := parseOpts(f[2]); return o }())
		if err != nil {
			return fail
		}
		var b bytes.Buffer
		switch f[3] {
		case "sql":
			if r.ToSQL(&b) != nil {
				return expect{b.Bytes(), 1, "sql"}
			}
			return expect{b.Bytes(), 0, "sql"}
		case "csv":
			if r.ToCSV(&b) != nil {
				return expect{b.Bytes(), 1, "raw"}
			}
			return expect{b.Bytes(), 0, "raw"}
		}
		// the dump: compared byte for byte (table, column and row order are part of what the program prints)
		return expect{encJSON(r), 0, "raw"}
	case "file":
		path := sub(unhexS(f[1]))
		switch f[2] {
		case "plain":
			data, err := os.ReadFile(path)
			if err != nil {
				return fail
			}
			var b bytes.Buffer
			switch filepath.Base(path) {
			case "1262":
				b.WriteString("pg_database:\n")
				for _, db := range pgdump.ParsePGDatabase(data) {
					fmt.Fprintf(&b, "  %s (OID %d)\n", db.Name, db.OID)
				}
			case "1259":
				// main.go prints the relations in ascending filenode order (fix cluster/05); compared byte for byte
				b.WriteString("pg_class:\n")
				tables := pgdump.ParsePGClass(data)
				fns := make([]uint32, 0, len(tables))
				for fn := range tables {
					fns = append(fns, fn)
				}
				sort.Slice(fns, func(i, j int) bool { return fns[i] < fns[j] })
				for _, fn := range fns {
					t := tables[fn]
					fmt.Fprintf(&b, "  %s (OID %d, filenode %d, kind %s)\n", t.Name, t.OID, t.Filenode, t.Kind)
				}
			case "1249":
				// relations in ascending oid order (fix cluster/05), columns as ParsePGAttribute lists them; byte for byte
				b.WriteString("pg_attribute:\n")
				attrs := pgdump.ParsePGAttribute(data, 0)
				relids := make([]uint32, 0, len(attrs))
				for relid := range attrs {
					relids = append(relids, relid)
				}
				sort.Slice(relids, func(i, j int) bool { return relids[i] < relids[j] })
				for _, relid := range relids {
					fmt.Fprintf(&b, "  relation %d:\n", relid)
					for _, c := range attrs[relid] {
						fmt.Fprintf(&b, "    %d: %s (%s)\n", c.Num, c.Name, pgdump.TypeName(c.TypID))
					}
				}
			default:
				fmt.Fprintf(&b, "Heap file: %d tuples\n", len(pgdump.ParseFile(data)))
			}
			return expect{b.Bytes(), 0, "raw"}
		case "index":
			data, err := os.ReadFile(path)
			if err != nil {
				return fail
			}
			info, err := pgdump.ParseIndexFile(data)
			if err != nil {
				return fail
			}
			return jsonOut(info)
		case "b":
			var br *pgdump.BlockRange
			if r := unhexS(f[3]); r != "" {
				var err error
				if br, err = pgdump.ParseBlockRange(r); err != nil {
					return fail
				}
			}
			dumps, err := pgdump.DumpBinaryRange(path, br)
			if err != nil {
				return fail
			}
			var b bytes.Buffer
			for _, d := range dumps {
				fmt.Fprintf(&b, "Block %d (offset 0x%08X):\n", d.BlockNumber, d.Offset)
				fmt.Fprintln(&b, d.HexDump)
			}
			return expect{b.Bytes(), 0, "raw"}
		case "R":
			br, err := pgdump.ParseBlockRange(unhexS(f[3]))
			if err != nil {
				return fail
			}
			if f[4] != "-" {
				ns := strings.Split(f[4], "/")
				if _, err := pgdump.GetSegmentInfo(path, &pgdump.SegmentOptions{SegmentNumber: core.Atoi(ns[0]), SegmentSize: core.Atoi(ns[1])}); err != nil {
					return fail
				}
			}
			blocks, err := pgdump.DumpBlockRange(path, br)
			if err != nil {
				return fail
			}
			return jsonOut(blocks)
		}
	}
	panic("cli: action not supported by the handler: " + action)
}

func init() {
	// process spawning (and the one-off build of the binary): no per-input-byte envelope
	core.SetEnvelope("cli", 0, 0, 0)
	core.SetEnvelope("repeat_cli", 0, 0, 0)
	// cli: args = argv (hex tokens, @DIR = the materialised tree), PGDATA set?, the action named by the model, files
	core.Register("cli", func(args []string) string {
		bin := pgreadBinary()
		files := parseFiles(args[3:])
		dir := materialise(files)
		defer os.RemoveAll(dir)
		var argv []string
		if args[0] != "-" {
			for _, h := range strings.Split(args[0], " ") {
				argv = append(argv, strings.ReplaceAll(unhexS(h), "@DIR", dir))
			}
		}
		cmd := exec.Command(bin, argv...)
		var env []string
		for _, e := range os.Environ() {
			if !strings.HasPrefix(e, "PGDATA=") {
				env = append(env, e)
			}
		}
		if args[1] == "1" {
			env = append(env, "PGDATA="+dir)
		}
		cmd.Env = env
		cmd.Dir = dir
		var stdout, stderr bytes.Buffer
		cmd.Stdout, cmd.Stderr = &stdout, &stderr
		err := cmd.Run()
		exit := 0
		if err != nil {
			ee, ok := err.(*exec.ExitError)
			if !ok {
				panic(err)
			}
			exit = ee.ExitCode()
		}
		action := args[2]
		// with PGDATA the model's directory is the token itself
		want := expected(action, dir)
		got := stdout.Bytes()
		same := false
		switch want.kind {
		case "sql":
			same = bytes.Equal(maskTS(got), maskTS(want.stdout))
		default:
			same = bytes.Equal(got, want.stdout)
		}
		if exit != want.exit {
			return fmt.Sprintf("EXIT:%d want %d stderr=%q", exit, want.exit, truncate(stderr.String(), 200))
		}
		if !same {
			return fmt.Sprintf("STDOUT differs from the library rendering of %s: got %q want %q", strings.SplitN(action, ":", 2)[0], truncate(string(got), 300), truncate(string(want.stdout), 300))
		}
		ex := "?"
		switch strings.SplitN(action, ":", 2)[0] {
		case "version", "nodatadir", "relmapinvalid", "dump", "listdb":
			ex = fmt.Sprint(exit)
		}
		return "ok|exit=" + ex
	})
}

func truncate(s string, n int) string {
	if len(s) <= n {
		return s
	}
	return s[:n] + "…"
}
