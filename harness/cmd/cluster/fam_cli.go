package main

import (
	"bytes"
	"encoding/json"
	"fmt"
	"os"
	"os/exec"
	"path/filepath"
	"regexp"
	"sort"
	"strconv"
	"strings"
	"sync"
	"syscall"

	"verif/harness/core"

	"github.com/Chocapikk/pgread/pgdump"
)

var (
	binOnce sync.Once
	binDir  string
	binPath string
	binErr  string
)

// grandparentPID identifies one sweep of bin/check: the shards are `bash -c "pgmodel … | impl"` children of one runner
func grandparentPID() int {
	b, err := os.ReadFile(fmt.Sprintf("/proc/%d/stat", os.Getppid()))
	if err != nil {
		return os.Getppid()
	}
	s := string(b)
	if i := strings.LastIndexByte(s, ')'); i >= 0 {
		f := strings.Fields(s[i+1:])
		if len(f) > 1 {
			if n, err := strconv.Atoi(f[1]); err == nil {
				return n
			}
		}
	}
	return os.Getppid()
}

func withDirLock(dir string, f func()) {
	lf, err := os.OpenFile(filepath.Join(dir, "lock"), os.O_CREATE|os.O_RDWR, 0o644)
	if err != nil {
		panic(err)
	}
	defer lf.Close()
	if err := syscall.Flock(int(lf.Fd()), syscall.LOCK_EX); err != nil {
		panic(err)
	}
	defer syscall.Flock(int(lf.Fd()), syscall.LOCK_UN)
	f()
}

func readRefs(dir string) int {
	b, err := os.ReadFile(filepath.Join(dir, "refs"))
	if err != nil {
		return 0
	}
	n, _ := strconv.Atoi(strings.TrimSpace(string(b)))
	return n
}

// pgreadBinary builds the CLI from the tree under test (VERIF_REPO, `go build` with -mod=readonly, output outside the
// tree) once per sweep: the shard processes of one runner share a scratch directory under a file lock with a
// reference count; the last one out removes it.
func pgreadBinary() string {
	binOnce.Do(func() {
		d := filepath.Join(os.TempDir(), fmt.Sprintf("verif-pgread-%d", grandparentPID()))
		if err := os.MkdirAll(d, 0o755); err != nil {
			binErr = err.Error()
			return
		}
		withDirLock(d, func() {
			out := filepath.Join(d, "pgread")
			refs := readRefs(d)
			if _, err := os.Stat(out); err != nil || refs == 0 {
				cmd := exec.Command("go", "build", "-o", out, ".")
				cmd.Dir = repoDir()
				env := []string{}
				for _, e := range os.Environ() {
					if strings.HasPrefix(e, "GOFLAGS=") || strings.HasPrefix(e, "GOPROXY=") || strings.HasPrefix(e, "GOTOOLCHAIN=") || strings.HasPrefix(e, "GOSUMDB=") {
						continue
					}
					env = append(env, e)
				}
				cmd.Env = append(env, "GOFLAGS=-mod=readonly", "GOPROXY=off")
				if b, err := cmd.CombinedOutput(); err != nil {
					binErr = fmt.Sprintf("go build failed: %v: %s", err, b)
					return
				}
			}
			os.WriteFile(filepath.Join(d, "refs"), []byte(strconv.Itoa(refs+1)), 0o644)
			binDir, binPath = d, out
		})
	})
	if binPath == "" {
		panic("cannot build pgread: " + binErr)
	}
	return binPath
}

func cleanupBinary() {
	if binDir == "" {
		return
	}
	remove := false
	withDirLock(binDir, func() {
		refs := readRefs(binDir) - 1
		if refs <= 0 {
			remove = true
			os.Remove(filepath.Join(binDir, "pgread"))
			os.Remove(filepath.Join(binDir, "refs"))
		} else {
			os.WriteFile(filepath.Join(binDir, "refs"), []byte(strconv.Itoa(refs)), 0o644)
		}
	})
	if remove {
		os.RemoveAll(binDir)
	}
}

var tsLine = regexp.MustCompile(`(?m)^-- Generated at: .*$`)

func maskTS(b []byte) []byte { return tsLine.ReplaceAll(b, []byte("-- Generated at: <masked>")) }

// canonJSON parses a stream of JSON values and re-renders them with every array sorted by the rendering of
// its elements (table / sequence order is C11's business), so that two processes can be compared
func canonJSON(b []byte) string {
	dec := json.NewDecoder(bytes.NewReader(b))
	dec.UseNumber()
	var out []string
	for {
		var v interface{}
		if err := dec.Decode(&v); err != nil {
			break
		}
		out = append(out, canonJ(v))
	}
	return strings.Join(out, "\n")
}

func canonJ(v interface{}) string {
	switch x := v.(type) {
	case map[string]interface{}:
		keys := make([]string, 0, len(x))
		for k := range x {
			keys = append(keys, k)
		}
		sort.Strings(keys)
		parts := make([]string, len(keys))
		for i, k := range keys {
			parts[i] = strconv.Quote(k) + ":" + canonJ(x[k])
		}
		return "{" + strings.Join(parts, ",") + "}"
	case []interface{}:
		parts := make([]string, len(x))
		for i, e := range x {
			parts[i] = canonJ(e)
		}
		sort.Strings(parts)
		return "[" + strings.Join(parts, ",") + "]"
	default:
		b, _ := json.Marshal(x)
		return string(b)
	}
}

type expect struct {
	stdout []byte
	exit   int
	kind   string // "json": compare canonical JSON; "sql": mask timestamp; "raw"
}

func encJSON(v interface{}) []byte {
	var buf bytes.Buffer
	enc := json.NewEncoder(&buf)
	enc.SetIndent("", "  ")
	enc.Encode(v)
	return buf.Bytes()
}

func unhexS(s string) string { return string(core.Unhex(s)) }

// expected renders what main.go prints for the action the model's decision table names, by calling the library
func expected(action string, dir string) expect {
	sub := func(s string) string { return strings.ReplaceAll(s, "@DIR", dir) }
	f := strings.Split(action, ":")
	fail := expect{nil, 1, "raw"}
	switch f[0] {
	case "version":
		return expect{[]byte(fmt.Sprintf("pgdump-offline %s\n", pgdump.Version)), 0, "raw"}
	case "nodatadir", "relmapinvalid":
		return fail
	case "listdb":
		dbs := pgdump.ListDatabases(sub(unhexS(f[1])))
		if len(dbs) == 0 {
			return expect{[]byte("No databases found\n"), 1, "raw"}
		}
		var b bytes.Buffer
		for _, db := range dbs {
			fmt.Fprintf(&b, "%s (OID %d)\n", db.Name, db.OID)
		}
		return expect{b.Bytes(), 0, "raw"}
	case "control":
		cf, err := pgdump.ReadControlFile(sub(unhexS(f[1])))
		if err != nil {
			return fail
		}
		return expect{encJSON(cf), 0, "json"}
	case "seq":
		d := sub(unhexS(f[1]))
		if f[2] == "all" {
			r, err := pgdump.ScanAllSequences(d)
			if err != nil {
				return fail
			}
			return expect{encJSON(r), 0, "json"}
		}
		r, err := pgdump.FindSequences(d, unhexS(f[3]))
		if err != nil {
			return fail
		}
		return expect{encJSON(r), 0, "json"}
	case "relmap":
		d := sub(unhexS(f[1]))
		var v interface{}
		var err error
		switch f[2] {
		case "global":
			v, err = pgdump.ReadGlobalRelMap(d)
		case "all":
			v, err = pgdump.ReadAllRelMaps(d)
		default:
			v, err = pgdump.ReadDatabaseRelMap(d, uint32(core.Atoi(f[3])))
		}
		if err != nil {
			return fail
		}
		return expect{encJSON(v), 0, "json"}
	case "passwords":
		auths, err := pgdump.ExtractPasswords(sub(unhexS(f[1])))
		if err != nil {
			return fail
		}
		if len(auths) == 0 {
			return expect{[]byte("No password hashes found\n"), 0, "raw"}
		}
		user := unhexS(f[2])
		var b bytes.Buffer
		b.WriteString("PostgreSQL Password Hashes:\n===========================\n")
		for _, a := range auths {
			if user != "all" && a.RoleName != user {
				continue
			}
			flags := ""
			if a.RolSuper {
				flags += " [SUPERUSER]"
			}
			if a.RolLogin {
				flags += " [LOGIN]"
			}
			if a.Password != "" {
				fmt.Fprintf(&b, "%s:%s%s\n", a.RoleName, a.Password, flags)
			} else {
				fmt.Fprintf(&b, "%s:(no password)%s\n", a.RoleName, flags)
			}
		}
		return expect{b.Bytes(), 0, "raw"}
	case "dump":
		r, err := pgdump.DumpDataDir(sub(unhexS(f[1])), func() *pgdump.Options { o := parseOpts(f[2]); return o }())
		if err != nil {
			return fail
		}
		var b bytes.Buffer
		switch f[3] {
		case "sql":
			if r.ToSQL(&b) != nil {
				return expect{b.Bytes(), 1, "sql"}
			}
			return expect{b.Bytes(), 0, "sql"}
		case "csv":
			if r.ToCSV(&b) != nil {
				return expect{b.Bytes(), 1, "raw"}
			}
			return expect{b.Bytes(), 0, "raw"}
		}
		// the dump: compared byte for byte (table, column and row order are part of what the program prints; remediation R6:
		// the array sorting of canonJSON hid them).  -sequences keeps "json" until FindSequences' order is deterministic.
		return expect{encJSON(r), 0, "raw"}
	case "file":
		path := sub(unhexS(f[1]))
		switch f[2] {
		case "plain":
			data, err := os.ReadFile(path)
			if err != nil {
				return fail
			}
			var b bytes.Buffer
			switch filepath.Base(path) {
			case "1262":
				b.WriteString("pg_database:\n")
				for _, db := range pgdump.ParsePGDatabase(data) {
					fmt.Fprintf(&b, "  %s (OID %d)\n", db.Name, db.OID)
				}
			case "1259":
				// set of lines: the order is map iteration order before fix 05 (C11 owns the order)
				b.WriteString("pg_class:\n")
				var lines []string
				for _, t := range pgdump.ParsePGClass(data) {
					lines = append(lines, fmt.Sprintf("  %s (OID %d, filenode %d, kind %s)\n", t.Name, t.OID, t.Filenode, t.Kind))
				}
				sort.Strings(lines)
				b.WriteString(strings.Join(lines, ""))
				return expect{b.Bytes(), 0, "lines"}
			case "1249":
				b.WriteString("pg_attribute:\n")
				var blocks []string
				for relid, cols := range pgdump.ParsePGAttribute(data, 0) {
					s := fmt.Sprintf("  relation %d:\n", relid)
					for _, c := range cols {
						s += fmt.Sprintf("    %d: %s (%s)\n", c.Num, c.Name, pgdump.TypeName(c.TypID))
					}
					blocks = append(blocks, s)
				}
				sort.Strings(blocks)
				b.WriteString(strings.Join(blocks, ""))
				return expect{b.Bytes(), 0, "blocks"}
			default:
				fmt.Fprintf(&b, "Heap file: %d tuples\n", len(pgdump.ParseFile(data)))
			}
			return expect{b.Bytes(), 0, "raw"}
		case "index":
			data, err := os.ReadFile(path)
			if err != nil {
				return fail
			}
			info, err := pgdump.ParseIndexFile(data)
			if err != nil {
				return fail
			}
			return expect{encJSON(info), 0, "json"}
		case "b":
			var br *pgdump.BlockRange
			if r := unhexS(f[3]); r != "" {
				var err error
				if br, err = pgdump.ParseBlockRange(r); err != nil {
					return fail
				}
			}
			dumps, err := pgdump.DumpBinaryRange(path, br)
			if err != nil {
				return fail
			}
			var b bytes.Buffer
			for _, d := range dumps {
				fmt.Fprintf(&b, "Block %d (offset 0x%08X):\n", d.BlockNumber, d.Offset)
				fmt.Fprintln(&b, d.HexDump)
			}
			return expect{b.Bytes(), 0, "raw"}
		case "R":
			br, err := pgdump.ParseBlockRange(unhexS(f[3]))
			if err != nil {
				return fail
			}
			if f[4] != "-" {
				ns := strings.Split(f[4], "/")
				if _, err := pgdump.GetSegmentInfo(path, &pgdump.SegmentOptions{SegmentNumber: core.Atoi(ns[0]), SegmentSize: core.Atoi(ns[1])}); err != nil {
					return fail
				}
			}
			blocks, err := pgdump.DumpBlockRange(path, br)
			if err != nil {
				return fail
			}
			return expect{encJSON(blocks), 0, "json"}
		}
	}
	panic("cli: action not supported by the handler: " + action)
}

// sortedBlocks splits "header\n" + blocks starting with "  relation" / lines and sorts them
func sortLinesAfterHeader(b []byte, blockPrefix string) string {
	s := string(b)
	i := strings.IndexByte(s, '\n')
	if i < 0 {
		return s
	}
	head, rest := s[:i+1], s[i+1:]
	var blocks []string
	cur := ""
	for _, l := range strings.SplitAfter(rest, "\n") {
		if l == "" {
			continue
		}
		if strings.HasPrefix(l, blockPrefix) && cur != "" {
			blocks = append(blocks, cur)
			cur = ""
		}
		cur += l
	}
	if cur != "" {
		blocks = append(blocks, cur)
	}
	sort.Strings(blocks)
	return head + strings.Join(blocks, "")
}

func init() {
	// process spawning (and the one-off build of the binary): no per-input-byte envelope
	core.SetEnvelope("cli", 0, 0, 0)
	core.SetEnvelope("repeat_cli", 0, 0, 0)
	// cli: args = argv (hex tokens, @DIR = the materialised tree), PGDATA set?, the action named by the model, files
	core.Register("cli", func(args []string) string {
		bin := pgreadBinary()
		files := parseFiles(args[3:])
		dir := materialise(files)
		defer os.RemoveAll(dir)
		var argv []string
		if args[0] != "-" {
			for _, h := range strings.Split(args[0], " ") {
				argv = append(argv, strings.ReplaceAll(unhexS(h), "@DIR", dir))
			}
		}
		cmd := exec.Command(bin, argv...)
		var env []string
		for _, e := range os.Environ() {
			if !strings.HasPrefix(e, "PGDATA=") {
				env = append(env, e)
			}
		}
		if args[1] == "1" {
			env = append(env, "PGDATA="+dir)
		}
		cmd.Env = env
		cmd.Dir = dir
		var stdout, stderr bytes.Buffer
		cmd.Stdout, cmd.Stderr = &stdout, &stderr
		err := cmd.Run()
		exit := 0
		if err != nil {
			ee, ok := err.(*exec.ExitError)
			if !ok {
				panic(err)
			}
			exit = ee.ExitCode()
		}
		action := args[2]
		// with PGDATA the model's directory is the token itself
		want := expected(action, dir)
		got := stdout.Bytes()
		same := false
		switch want.kind {
		case "json":
			same = canonJSON(got) == canonJSON(want.stdout)
		case "sql":
			same = bytes.Equal(maskTS(got), maskTS(want.stdout))
		case "lines":
			same = sortLinesAfterHeader(got, "  ") == string(want.stdout)
		case "blocks":
			same = sortLinesAfterHeader(got, "  relation") == string(want.stdout)
		default:
			same = bytes.Equal(got, want.stdout)
		}
		if exit != want.exit {
			return fmt.Sprintf("EXIT:%d want %d stderr=%q", exit, want.exit, truncate(stderr.String(), 200))
		}
		if !same {
			return fmt.Sprintf("STDOUT differs from the library rendering of %s: got %q want %q", strings.SplitN(action, ":", 2)[0], truncate(string(got), 300), truncate(string(want.stdout), 300))
		}
		ex := "?"
		switch strings.SplitN(action, ":", 2)[0] {
		case "version", "nodatadir", "relmapinvalid", "dump", "listdb":
			ex = fmt.Sprint(exit)
		}
		return "ok|exit=" + ex
	})
}

func truncate(s string, n int) string {
	if len(s) <= n {
		return s
	}
	return s[:n] + "…"
}
