// impl-delscan: implementation side of the correspondence family of area "delscan"
// (deleted.go:ScanAllDeletedRows over whole data directories; REVIEW B13, fixes/rows/07).
package main

import "verif/harness/core"

func main() {
	core.TablesNamespace = "Delscan"
	core.Main()
}
