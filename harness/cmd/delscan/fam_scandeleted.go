package main

import (
	"fmt"
	"os"
	"path/filepath"
	"sort"
	"strings"

	"verif/harness/core"

	"github.com/Chocapikk/pgread/pgdump"
)

// The canonical text of a dump is the one of area "cluster" (harness/cmd/cluster/common.go), repeated here so that the
// two harness commands build independently.

// type oids whose PostgreSQL name the Spec states (lean/PgVerif/Spec/Cluster.lean: typeNames)
var specTypes = map[int]bool{16: true, 17: true, 18: true, 19: true, 20: true, 21: true, 23: true, 25: true, 26: true, 700: true,
	701: true, 1042: true, 1043: true, 1082: true, 1114: true, 1184: true, 1700: true, 2950: true, 3802: true, 114: true}

type file struct {
	path string
	data []byte
}

func parseFiles(args []string) []file {
	fs := make([]file, 0, len(args))
	for _, a := range args {
		i := strings.IndexByte(a, '=')
		if i < 0 {
			panic("bad file argument")
		}
		fs = append(fs, file{a[:i], core.Unhex(a[i+1:])})
	}
	return fs
}

// materialise writes the tree into a fresh directory (first entry for a path wins) and returns it
func materialise(files []file) string {
	dir, err := os.MkdirTemp("", "verif-delscan-")
	if err != nil {
		panic(err)
	}
	seen := map[string]bool{}
	for _, f := range files {
		if seen[f.path] {
			continue
		}
		seen[f.path] = true
		p := filepath.Join(dir, filepath.FromSlash(f.path))
		if err := os.MkdirAll(filepath.Dir(p), 0o755); err != nil {
			panic(err)
		}
		if err := os.WriteFile(p, f.data, 0o644); err != nil {
			panic(err)
		}
	}
	return dir
}

func parseOpts(s string) *pgdump.Options {
	f := strings.Split(s, ",")
	if len(f) != 5 {
		panic("bad options")
	}
	return &pgdump.Options{DatabaseFilter: string(core.Unhex(f[0])), TableFilter: string(core.Unhex(f[1])), ListOnly: f[2] == "1",
		SkipSystemTables: f[3] == "1", PostgresVersion: core.Atoi(f[4])}
}

func showRows(rows []map[string]interface{}) string {
	parts := make([]string, len(rows))
	for i, r := range rows {
		parts[i] = core.CanonVal(r)
	}
	return strings.Join(parts, ";")
}

func showCol(c pgdump.ColumnInfo) string {
	ty := "-"
	if specTypes[c.TypID] {
		ty = core.Hx([]byte(c.Type))
	}
	return fmt.Sprintf("%s/%d/%s", core.Hx([]byte(c.Name)), c.TypID, ty)
}

func showTable(t *pgdump.TableDump) string {
	cols := make([]string, len(t.Columns))
	for i, c := range t.Columns {
		cols[i] = showCol(c)
	}
	return fmt.Sprintf("T%d:%s:%d:%s:c=%s:n=%d:r=%s", t.OID, core.Hx([]byte(t.Name)), t.Filenode, core.Hx([]byte(t.Kind)),
		strings.Join(cols, ","), t.RowCount, showRows(t.Rows))
}

// tables in filenode order (stable): the order itself is C11's business; rows stay in the order returned
func showDb(d *pgdump.DatabaseDump) string {
	ts := make([]*pgdump.TableDump, len(d.Tables))
	for i := range d.Tables {
		ts[i] = &d.Tables[i]
	}
	sort.SliceStable(ts, func(i, j int) bool { return ts[i].Filenode < ts[j].Filenode })
	parts := make([]string, len(ts))
	for i, t := range ts {
		parts[i] = showTable(t)
	}
	return fmt.Sprintf("D%d:%s[%s]", d.OID, core.Hx([]byte(d.Name)), strings.Join(parts, "@"))
}

func showDump(r *pgdump.DumpResult) string {
	if r == nil {
		return "ERR"
	}
	parts := make([]string, len(r.Databases))
	for i := range r.Databases {
		parts[i] = showDb(&r.Databases[i])
	}
	return strings.Join(parts, "#")
}

const sep = " || "

func init() {
	// scandeleted: args = option combinations, then the file tree; ScanAllDeletedRows on the materialised tree
	core.Register("scandeleted", func(args []string) string {
		files := parseFiles(args[1:])
		dir := materialise(files)
		defer os.RemoveAll(dir)
		var out []string
		for _, c := range strings.Split(args[0], ";") {
			r, err := pgdump.ScanAllDeletedRows(dir, parseOpts(c))
			if err != nil {
				r = nil
			}
			out = append(out, showDump(r))
		}
		return strings.Join(out, sep)
	})
}
