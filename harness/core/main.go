// impl — the implementation side of the correspondence check.
//
// Reads case lines produced by `pgmodel gen` on stdin
//
//	C <family> <idx> <tags> <model> <spec> <arg>...
//
// runs the real pgdump code (in-process, under recover) on the arguments, renders the result in
// the same canonical text as the Lean driver, and reports per family: agreement counts, tag
// histogram, distinct non-trivial outputs, samples and every disagreement (as JSON lines).
package core

import (
	"bufio"
	"crypto/sha1"
	"encoding/json"
	"fmt"
	"os"
	"runtime"
	"runtime/debug"
	"sort"
	"strconv"
	"strings"
	"sync"
	"sync/atomic"
	"syscall"
	"time"
)

// Handler runs the implementation on the arguments of one case and returns the canonical output.
type Handler func(args []string) string

var handlers = map[string]Handler{}

// Register makes a family handler known to the harness (call from init()).
func Register(name string, h Handler) { handlers[name] = h }

type diffRec struct {
	T     string   `json:"t"`
	Fam   string   `json:"fam"`
	Idx   int      `json:"idx"`
	Kind  string   `json:"kind"`
	Tags  string   `json:"tags"`
	Impl  string   `json:"impl"`
	Model string   `json:"model"`
	Spec  string   `json:"spec"`
	Args  []string `json:"args"`
}

type famStat struct {
	T            string         `json:"t"`
	Fam          string         `json:"fam"`
	Cases        int            `json:"cases"`
	ImplEqModel  int            `json:"impl_eq_model"`
	ImplEqSpec   int            `json:"impl_eq_spec"`
	SpecSilent   int            `json:"spec_silent"`
	ModelEqSpec  int            `json:"model_eq_spec"`
	Nontrivial   int            `json:"nontrivial"`
	DistinctNT   int            `json:"distinct_nontrivial"`
	Diffs        int            `json:"diffs"`
	Panics       int            `json:"impl_panics"`
	Hist         map[string]int `json:"hist"`
	Samples      []string       `json:"samples"`
	MaxAllocPerB float64        `json:"max_alloc_per_input_byte"`
	MaxMillis    float64        `json:"max_case_ms"`
	Mutated      int            `json:"input_mutated"`
	distinct     map[[20]byte]struct{}
}

// Resource envelope (C10: "does not run or allocate beyond a small multiple of what the input size
// warrants"): a case whose allocation exceeds A*inputBytes + B bytes, or whose run time exceeds MaxMs,
// gets its output prefixed with RESOURCE:… and so differs from both model and spec.  The constants are
// deliberately generous (they must never fire on the unchanged tree); SetEnvelope overrides them per family.
type envelope struct {
	A     float64
	B     float64
	MaxMs float64
}

var defaultEnvelope = envelope{A: 512, B: 64 << 20, MaxMs: 10000}
var envelopes = map[string]envelope{}

// SetEnvelope sets the allocation/time envelope of one family (a <= 0 disables the allocation bound).
func SetEnvelope(fam string, a, b, maxMs float64) { envelopes[fam] = envelope{a, b, maxMs} }

// concurrent > 1: run every case also from that many goroutines on shared buffers (VERIF_CONCURRENT), each goroutine
// repeating it concRounds times
var concurrent = 0
var concRounds = 3

var curCase atomic.Value // string: description of the case being executed (for the watchdog)

func panicKind(r interface{}) string {
	s := fmt.Sprint(r)
	switch {
	case strings.Contains(s, "index out of range"):
		return "index"
	case strings.Contains(s, "slice bounds out of range"):
		return "slice"
	case strings.Contains(s, "makeslice"), strings.Contains(s, "out of range") && strings.Contains(s, "cap"):
		return "makeLen"
	case strings.Contains(s, "divide by zero"):
		return "divZero"
	case strings.Contains(s, "nil pointer"), strings.Contains(s, "nil map"):
		return "nilDeref"
	case strings.Contains(s, "out of memory"), strings.Contains(s, "too large"):
		return "makeLen"
	}
	return "other(" + s + ")"
}

func runCase(h Handler, args []string) (out string) {
	defer func() {
		if r := recover(); r != nil {
			out = "PANIC:" + panicKind(r)
		}
	}()
	return h(args)
}

// normPanic maps every panic/fault kind to one token: the kind is informative only, Go checks
// re-slicing against capacity where the model checks against length.
func normPanic(s string) string {
	if strings.HasPrefix(s, "PANIC:") {
		return "PANIC"
	}
	return s
}

// Main is the entry point of every area binary.
func Main() {
	maxDiffs := 40
	caseTimeout := 20 * time.Second
	if v := os.Getenv("VERIF_CASE_TIMEOUT_S"); v != "" {
		if n, err := strconv.Atoi(v); err == nil {
			caseTimeout = time.Duration(n) * time.Second
		}
	}
	if v := os.Getenv("VERIF_CONCURRENT"); v != "" {
		concurrent, _ = strconv.Atoi(v)
	}
	if v := os.Getenv("VERIF_CONC_ROUNDS"); v != "" {
		concRounds, _ = strconv.Atoi(v)
	}
	debug.SetGCPercent(100)
	out := bufio.NewWriterSize(os.Stdout, 1<<20)
	defer out.Flush()
	enc := json.NewEncoder(out)
	enc.SetEscapeHTML(false)

	if len(os.Args) > 1 && os.Args[1] == "tables" {
		writeTables(out)
		return
	}
	if len(os.Args) > 1 && os.Args[1] == "one" {
		// one <family> <arg>... : print the implementation's canonical output for explicit arguments
		h, ok := handlers[os.Args[2]]
		if !ok {
			fmt.Fprintln(out, "bad-family")
			return
		}
		fmt.Fprintln(out, runCase(h, os.Args[3:]))
		return
	}

	stats := map[string]*famStat{}
	var order []string
	sc := bufio.NewScanner(os.Stdin)
	sc.Buffer(make([]byte, 1<<20), 1<<30)

	// watchdog: a case that does not return is a hang (C10); report it and stop.
	var deadline atomic.Int64
	go func() {
		for {
			time.Sleep(200 * time.Millisecond)
			d := deadline.Load()
			if d != 0 && time.Now().UnixNano() > d {
				out.Flush()
				c, _ := curCase.Load().(string)
				fmt.Fprintf(os.Stdout, "{\"t\":\"hang\",\"case\":%q,\"timeout_s\":%d}\n", c, int(caseTimeout.Seconds()))
				os.Exit(3)
			}
		}
	}()

	for sc.Scan() {
		line := sc.Text()
		if !strings.HasPrefix(line, "C\t") {
			continue
		}
		f := strings.Split(line, "\t")
		if len(f) < 6 {
			continue
		}
		fam, idxS, tags, model, spec, args := f[1], f[2], f[3], f[4], f[5], f[6:]
		idx, _ := strconv.Atoi(idxS)
		st := stats[fam]
		if st == nil {
			st = &famStat{T: "summary", Fam: fam, Hist: map[string]int{}, distinct: map[[20]byte]struct{}{}}
			stats[fam] = st
			order = append(order, fam)
		}
		h, ok := handlers[fam]
		if !ok {
			fmt.Fprintf(os.Stderr, "no handler for family %s\n", fam)
			os.Exit(2)
		}
		curCase.Store(fam + "#" + idxS)
		var m0, m1 runtime.MemStats
		runtime.ReadMemStats(&m0)
		t0 := time.Now()
		c0 := cpuMillis()
		deadline.Store(t0.Add(caseTimeout).UnixNano())
		resetBufs()
		impl := runCase(h, args)
		if !buffersIntact() {
			st.Mutated++
			impl = "INPUT-MODIFIED:" + impl
		} else if concurrent > 1 {
			// C11: the same case from `concurrent` goroutines at once on SHARED input buffers; every result must
			// equal the sequential one and the buffers must be unchanged afterwards
			resetBufs()
			sharedMode = true
			outs := make([]string, concurrent)
			var wg sync.WaitGroup
			for g := 0; g < concurrent; g++ {
				wg.Add(1)
				go func(g int) {
					defer wg.Done()
					for r := 0; r < concRounds; r++ {
						o := runCase(h, args)
						if r == 0 || o != impl {
							outs[g] = o
						}
						if o != impl {
							return
						}
					}
				}(g)
			}
			wg.Wait()
			sharedMode = false
			for _, o := range outs {
				if o != impl {
					impl = "CONCURRENT-DIFF:" + clip(o) + " vs sequential:" + impl
					break
				}
			}
			if !buffersIntact() {
				st.Mutated++
				impl = "INPUT-MODIFIED:" + impl
			}
		}
		deadline.Store(0)
		el := time.Since(t0)
		cpuMs := cpuMillis() - c0 // CPU time of this process (all threads): what the code costs, not what the machine's load adds
		runtime.ReadMemStats(&m1)
		if ms := float64(el.Microseconds()) / 1000; ms > st.MaxMillis {
			st.MaxMillis = ms
		}
		inBytes := 0
		for _, b := range caseBufs {
			inBytes += len(b[0])
		}
		for _, a := range args {
			inBytes += len(a)
		}
		alloc := float64(m1.TotalAlloc - m0.TotalAlloc)
		apb := alloc / float64(inBytes+4096)
		if apb > st.MaxAllocPerB {
			st.MaxAllocPerB = apb
		}
		env, ok := envelopes[fam]
		if !ok {
			env = defaultEnvelope
		}
		if concurrent > 1 {
			// the envelope is about one call; the concurrent phase multiplies time and allocation
		} else if env.A > 0 && alloc > env.A*float64(inBytes)+env.B {
			impl = fmt.Sprintf("RESOURCE:alloc=%.0f-for-%d-input-bytes:", alloc, inBytes) + impl
		} else if ms := cpuMs; env.MaxMs > 0 && ms > env.MaxMs {
			// wall time on a shared machine: run the case once more before calling it slow (the better of two runs counts)
			t1 := time.Now()
			c1 := cpuMillis()
			deadline.Store(t1.Add(caseTimeout).UnixNano())
			resetBufs()
			again := runCase(h, args)
			deadline.Store(0)
			ms2 := cpuMillis() - c1
			if ms2 > env.MaxMs && again == impl {
				impl = fmt.Sprintf("RESOURCE:ms=%.0f/%.0f-for-%d-input-bytes:", ms, ms2, inBytes) + impl
			}
		}

		st.Cases++
		nt := false
		for _, tg := range strings.Split(tags, ",") {
			if tg == "nt" {
				nt = true
			} else if tg != "-" && tg != "" {
				st.Hist[tg]++
			}
		}
		if strings.HasPrefix(impl, "PANIC") {
			st.Panics++
			st.Hist["impl:"+impl]++
		}
		im, mo, sp := normPanic(impl), normPanic(model), normPanic(spec)
		eqM := im == mo
		// a panic of the implementation is never acceptable (C10), whether or not the spec speaks about this input and
		// whether or not the model faults too
		eqS := (spec == "-" || im == sp) && !strings.HasPrefix(impl, "PANIC") && !strings.HasPrefix(impl, "INPUT-MODIFIED:") && !strings.HasPrefix(impl, "RESOURCE:")
		if eqM {
			st.ImplEqModel++
		}
		if spec == "-" {
			st.SpecSilent++
		} else {
			if im == sp {
				st.ImplEqSpec++
			}
			if mo == sp {
				st.ModelEqSpec++
			}
		}
		if nt {
			st.Nontrivial++
			st.distinct[sha1.Sum([]byte(model))] = struct{}{}
		}
		if len(st.Samples) < 3 && (nt || st.Cases > 20) {
			s := line
			if len(s) > 600 {
				s = s[:600] + "…"
			}
			st.Samples = append(st.Samples, s)
		}
		if !eqM || !eqS {
			st.Diffs++
			kind := "impl!=model"
			if !eqS && !eqM {
				kind = "impl!=spec,impl!=model"
			} else if !eqS {
				kind = "impl!=spec"
			}
			if st.Diffs <= maxDiffs || strings.Contains(tags, "kf:") && st.Diffs <= 4*maxDiffs {
				enc.Encode(diffRec{T: "diff", Fam: fam, Idx: idx, Kind: kind, Tags: tags, Impl: impl, Model: model, Spec: spec, Args: args})
			} else {
				enc.Encode(diffRec{T: "diff", Fam: fam, Idx: idx, Kind: kind, Tags: tags, Impl: clip(impl), Model: clip(model), Spec: clip(spec)})
			}
		}
	}
	sort.Strings(order)
	for _, fam := range order {
		st := stats[fam]
		st.DistinctNT = len(st.distinct)
		enc.Encode(st)
	}
}

// cpuMillis is the CPU time (user + system, all threads) this process has used so far
func cpuMillis() float64 {
	var ru syscall.Rusage
	if err := syscall.Getrusage(syscall.RUSAGE_SELF, &ru); err != nil {
		return 0
	}
	return float64(ru.Utime.Sec+ru.Stime.Sec)*1000 + float64(ru.Utime.Usec+ru.Stime.Usec)/1000
}

func clip(s string) string {
	if len(s) > 200 {
		return s[:200] + "…"
	}
	return s
}
