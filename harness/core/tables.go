package core

import (
	"bufio"
)

// writeTables emits Generated/Tables.lean: the graphs of pgread's table-like functions,
// obtained by executing the current code.
func writeTables(out *bufio.Writer) {
	out.WriteString("-- generated from /repo by `impl tables`; do not edit\n")
	out.WriteString("namespace PgVerif.Generated." + TablesNamespace + "\n")
	for _, g := range tableGens {
		g(out)
	}
	out.WriteString("end PgVerif.Generated." + TablesNamespace + "\n")
}

// TablesNamespace is the Lean namespace suffix of the generated file (set by the area's main).
var TablesNamespace = "Tables"

var tableGens []func(out *bufio.Writer)

// RegisterTable adds a generator of Lean definitions (the graph of a table-like function, obtained by executing it).
func RegisterTable(g func(out *bufio.Writer)) { tableGens = append(tableGens, g) }
