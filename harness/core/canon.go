package core

import (
	"bytes"
	"encoding/hex"
	"fmt"
	"math"
	"sort"
	"strconv"
	"strings"
	"sync"
)

// buffers handed to the implementation in the current case, with a snapshot of each, so that
// "never modifies the caller's input" can be checked after every call.
var caseBufs [][2][]byte

// Concurrent mode (C11): while the goroutines of one case run, Unhex hands every goroutine the SAME buffer for the
// same hex argument, so the implementation is exercised from many goroutines on shared input buffers.
var (
	bufMu      sync.Mutex
	sharedMode bool
	sharedBufs = map[string][]byte{}
)

func resetBufs() {
	bufMu.Lock()
	caseBufs = caseBufs[:0]
	sharedBufs = map[string][]byte{}
	bufMu.Unlock()
}

func buffersIntact() bool {
	for _, b := range caseBufs {
		if !bytes.Equal(b[0], b[1]) {
			return false
		}
	}
	return true
}

// Unhex decodes the driver's hex with zero-run coding ("z<count>.", "-" = empty) into a fresh
// buffer whose capacity equals its length (so an over-read past the slice is a Go panic too),
// and registers it for the immutability check.
func Unhex(s string) []byte {
	if sharedMode {
		bufMu.Lock()
		if b, ok := sharedBufs[s]; ok {
			bufMu.Unlock()
			return b
		}
		bufMu.Unlock()
	}
	out := make([]byte, 0, len(s)/2)
	for i := 0; i < len(s); {
		c := s[i]
		if c == '-' {
			i++
			continue
		}
		if c == 'z' {
			j := strings.IndexByte(s[i:], '.') + i
			n, _ := strconv.Atoi(s[i+1 : j])
			out = append(out, make([]byte, n)...)
			i = j + 1
			continue
		}
		v, err := strconv.ParseUint(s[i:i+2], 16, 8)
		if err != nil {
			panic("bad hex in case line")
		}
		out = append(out, byte(v))
		i += 2
	}
	exact := make([]byte, len(out))
	copy(exact, out)
	snap := make([]byte, len(out))
	copy(snap, out)
	bufMu.Lock()
	defer bufMu.Unlock()
	if sharedMode {
		if b, ok := sharedBufs[s]; ok {
			return b
		}
		sharedBufs[s] = exact
	}
	caseBufs = append(caseBufs, [2][]byte{exact, snap})
	return exact
}

func Hx(b []byte) string { return hex.EncodeToString(b) }

func B2s(b bool) string {
	if b {
		return "1"
	}
	return "0"
}

func Atoi(s string) int {
	n, err := strconv.Atoi(s)
	if err != nil {
		panic("bad int in case line: " + s)
	}
	return n
}

// CanonVal renders a decoded Go value in the canonical text of the Lean side (GoVal.show):
// nil "~", bool "T"/"F", every integer kind "i<decimal>", float64 "d<bits>", float32 "e<bits>",
// string "s<hex>", slices "[a,b]", maps "{<hexkey>:v,...}" sorted by key bytes.
func CanonVal(v interface{}) string {
	var sb strings.Builder
	writeCanon(&sb, v)
	return sb.String()
}

func writeCanon(sb *strings.Builder, v interface{}) {
	switch x := v.(type) {
	case nil:
		sb.WriteString("~")
	case bool:
		if x {
			sb.WriteString("T")
		} else {
			sb.WriteString("F")
		}
	case int:
		fmt.Fprintf(sb, "i%d", x)
	case int8:
		fmt.Fprintf(sb, "i%d", x)
	case int16:
		fmt.Fprintf(sb, "i%d", x)
	case int32:
		fmt.Fprintf(sb, "i%d", x)
	case int64:
		fmt.Fprintf(sb, "i%d", x)
	case uint8:
		fmt.Fprintf(sb, "i%d", x)
	case uint16:
		fmt.Fprintf(sb, "i%d", x)
	case uint32:
		fmt.Fprintf(sb, "i%d", x)
	case uint64:
		fmt.Fprintf(sb, "i%d", x)
	case uint:
		fmt.Fprintf(sb, "i%d", x)
	case float64:
		fmt.Fprintf(sb, "d%016x", math.Float64bits(x))
	case float32:
		fmt.Fprintf(sb, "e%08x", math.Float32bits(x))
	case string:
		sb.WriteString("s")
		sb.WriteString(hex.EncodeToString([]byte(x)))
	case []byte:
		sb.WriteString("s")
		sb.WriteString(hex.EncodeToString(x))
	case []interface{}:
		sb.WriteString("[")
		for i, e := range x {
			if i > 0 {
				sb.WriteString(",")
			}
			writeCanon(sb, e)
		}
		sb.WriteString("]")
	case []string:
		sb.WriteString("[")
		for i, e := range x {
			if i > 0 {
				sb.WriteString(",")
			}
			writeCanon(sb, e)
		}
		sb.WriteString("]")
	case map[string]interface{}:
		keys := make([]string, 0, len(x))
		for k := range x {
			keys = append(keys, k)
		}
		sort.Strings(keys)
		sb.WriteString("{")
		for i, k := range keys {
			if i > 0 {
				sb.WriteString(",")
			}
			sb.WriteString(hex.EncodeToString([]byte(k)))
			sb.WriteString(":")
			writeCanon(sb, x[k])
		}
		sb.WriteString("}")
	default:
		fmt.Fprintf(sb, "?%T(%v)", v, v)
	}
}
